"""E3: stateless deviation-bounded DFS over schedules of the real nREPL threads.

Executions run in warm server processes. Default mode "inproc": the server runs one execution after the other in its own
process (at the end of an execution every thread of it unwinds and exits); a forked child per execution (mode "fork",
GV_SCHED_MODE=fork) costs several thousand page faults each, which this machine serialises across processes. Both modes
run the same code; `Explorer.determinism` executes its probe prefixes in both and demands identical observations.

An execution is `garden-verif verif nrepl-run` fed {script, prefix, horizon}: it follows the choice prefix, then
always takes alternative 0, and prints the trace (every scheduling point with its alternatives and the choice),
notes (dequeue events, sends) and the ordered response messages.

Deviation cost: every non-default choice costs 1, whether it is a "timer fires" alternative, a preemption of a
task that could have continued, or picking another task than the lowest-numbered one when the running task is
blocked or finished. (Making the last kind free, as CHESS does, multiplied the cost-0 level by the product of all
forced switches of three to five tasks and left no budget for preemptions.) "Bound k" therefore means: every
schedule that departs from the default policy in at most k places.
"""
import atexit, concurrent.futures, heapq, json, os, queue, select, subprocess, threading, time

from .core import Machinery
from .pool import NCPU


class _Server:
    """One `garden-verif verif nrepl-serve` fork server: a job line in, a result line out, each job in a forked child."""

    def __init__(self, binary, mode):
        self.binary = binary
        self.mode = mode
        self.p = None

    def start(self):
        self.stop()
        self.p = subprocess.Popen([self.binary, "verif", "nrepl-serve" if self.mode == "fork" else "nrepl-serve-inproc"], stdin=subprocess.PIPE, stdout=subprocess.PIPE, stderr=subprocess.DEVNULL)

    def stop(self):
        if self.p is not None:
            try:
                self.p.kill()
                self.p.wait()
            except Exception:
                pass
            self.p = None

    def call(self, inp, timeout):
        if self.p is None or self.p.poll() is not None:
            self.start()
        try:
            self.p.stdin.write(inp.encode() + b"\n")
            self.p.stdin.flush()
        except (BrokenPipeError, OSError):
            self.start()
            return None, "server died"
        fd = self.p.stdout.fileno()
        buf = b""
        deadline = time.time() + timeout
        while not buf.endswith(b"\n"):
            left = deadline - time.time()
            if left <= 0:
                self.start()
                return None, "PROCESS-TIMEOUT"
            r, _, _ = select.select([fd], [], [], left)
            if not r:
                continue
            chunk = os.read(fd, 1 << 20)
            if not chunk:
                self.start()
                return None, "server died"
            buf += chunk
        return buf, None


MODE = os.environ.get("GV_SCHED_MODE", "inproc")
_idle = {}
_lock = threading.Lock()


def _get_server(binary, mode):
    with _lock:
        q = _idle.setdefault(mode, queue.Queue())
    try:
        return q.get_nowait()
    except queue.Empty:
        return _Server(binary, mode)


def shutdown_servers():
    with _lock:
        for q in _idle.values():
            while True:
                try:
                    q.get_nowait().stop()
                except queue.Empty:
                    break


def run_exec(binary, script, prefix, horizon, timeout=120, mode=None):
    """One execution of the real code under the controlled scheduler, in a warm server process."""
    mode = mode or MODE
    inp = json.dumps({"script": script, "prefix": prefix, "horizon": horizon})
    out = why = None
    for attempt in range(3):
        srv = _get_server(binary, mode)
        if srv.binary != binary:
            srv.stop()
            srv = _Server(binary, mode)
        out, why = srv.call(inp, timeout)
        if out is not None:
            break
        srv.stop()
        # an in-process server retires itself (every 250th run, after a panic or a leaked thread): its pipe may close under us
        if mode == "fork" or why != "server died":
            break
    if out is None:
        return {"end": why if why.startswith("PROCESS") else f"PROCESS-EXIT {why}", "trace": [], "notes": [], "responses": [], "tasks": []}
    _idle[mode].put(srv)
    try:
        return json.loads(out.decode())
    except ValueError:
        return {"end": "BAD-OUTPUT", "stderr": out.decode("utf-8", "replace")[-500:], "trace": [], "notes": [], "responses": [], "tasks": []}


def alt_cost(point, alt_index):
    if alt_index == 0:
        return 0
    return 1


def canon(res):
    """Canonical form of an execution for determinism comparison (timings masked, dict keys sorted)."""
    def mask(m):
        m = dict(m)
        if "eval-msec" in m:
            m["eval-msec"] = "<ms>"
        if "sessions" in m and isinstance(m["sessions"], list):
            m["sessions"] = sorted(m["sessions"])
        return m
    return json.dumps({"end": res["end"], "trace": [[p["by"], p["label"], p["alts"], p["choice"]] for p in res["trace"]],
                       "notes": res["notes"], "responses": [mask(m) for m in res["responses"]]}, sort_keys=True)


def executed_ops(res):
    """[(trace index, task, label)] of the operation resumed at each point (the chosen alternative)."""
    return [(i, p["alts"][p["choice"]][0], p["alts"][p["choice"]][1], p["alts"][p["choice"]][2]) for i, p in enumerate(res["trace"])]


atexit.register(shutdown_servers)


class Explorer:
    def __init__(self, binary, script, horizon, bound, check, deadline=None, max_execs=None, jobs=NCPU):
        self.binary, self.script, self.horizon, self.bound, self.check = binary, script, horizon, bound, check
        self.deadline, self.max_execs, self.jobs = deadline, max_execs, jobs
        self.execs = 0
        self.points = 0
        self.by_cost = {}
        self.ends = {}
        self.completed_bound = -1
        self.capped = None
        self.outcomes = set()
        self.max_len = 0
        self.cross_checked = 0

    def determinism(self, prefixes):
        for pf in prefixes:
            a = run_exec(self.binary, self.script, pf, self.horizon)
            b = run_exec(self.binary, self.script, pf, self.horizon)
            if a["end"].startswith(("PROCESS", "BAD", "DIVERGED")) or canon(a) != canon(b):
                raise Machinery(f"nondeterministic or failing replay of prefix {pf}: {a['end']} / {b['end']} {a.get('stderr', '')[:300]}")
            if MODE != "fork":
                # the same prefix in a forked child of its own: the execution must not depend on what ran in the process before
                c = run_exec(self.binary, self.script, pf, self.horizon, mode="fork")
                if canon(a) != canon(c):
                    raise Machinery(f"execution of prefix {pf} differs between a reused process and a fresh one: {a['end']} / {c['end']}")

    def explore(self):
        # priority queue ordered by cost so that bound k completes before k+1 starts
        heap = [(0, 0, [])]
        seq = 1
        with concurrent.futures.ThreadPoolExecutor(self.jobs) as ex:
            while heap:
                cost = heap[0][0]
                batch = []
                while heap and heap[0][0] == cost and len(batch) < self.jobs * 4:
                    batch.append(heapq.heappop(heap))
                if (self.deadline and time.time() > self.deadline) or (self.max_execs and self.execs >= self.max_execs):
                    self.capped = f"cap hit while exploring deviation cost {cost}"
                    self.completed_bound = cost - 1
                    return
                results = list(ex.map(lambda item: run_exec(self.binary, self.script, item[2], self.horizon), batch))
                for (c, _, prefix), res in zip(batch, results):
                    self.execs += 1
                    self.by_cost[c] = self.by_cost.get(c, 0) + 1
                    end = res["end"].split(" ")[0]
                    self.ends[end] = self.ends.get(end, 0) + 1
                    if end in ("PROCESS-TIMEOUT", "BAD-OUTPUT", "DIVERGED:", "FORK-FAILED", "CHILD-STATUS") or end.startswith("PROCESS-EXIT"):
                        raise Machinery(f"execution failed for prefix {prefix}: {res['end']} {res.get('stderr', '')[:500]}")
                    trace = res["trace"]
                    self.points += len(trace)
                    self.max_len = max(self.max_len, len(trace))
                    choices = [p["choice"] for p in trace]
                    if choices[:len(prefix)] != prefix:
                        raise Machinery(f"replay diverged from prefix {prefix}")
                    if MODE != "fork" and self.execs % 97 == 0:
                        # spot check against a forked child of its own (state carried over from earlier runs would show here)
                        fresh = run_exec(self.binary, self.script, prefix, self.horizon, mode="fork")
                        self.cross_checked += 1
                        if canon(fresh) != canon(res):
                            raise Machinery(f"execution of prefix {prefix} differs between a reused process and a fresh one: {res['end']} / {fresh['end']}")
                    self.outcomes.add(json.dumps([{k: v for k, v in m.items() if k != "eval-msec"} for m in res["responses"]], sort_keys=True))
                    self.check(res, prefix, c)
                    for i in range(len(prefix), len(trace)):
                        for alt in range(1, len(trace[i]["alts"])):
                            c2 = c + alt_cost(trace[i], alt)
                            if c2 <= self.bound:
                                heapq.heappush(heap, (c2, seq, choices[:i] + [alt]))
                                seq += 1
        self.completed_bound = self.bound


def status_of(m):
    s = m.get("status")
    return s if isinstance(s, list) else []


def by_id(responses):
    out = {}
    for k, m in enumerate(responses):
        out.setdefault(m.get("id"), []).append((k, m))
    return out


def sent_index(res):
    """trace index at which the k-th message on the response channel (ch0) was sent."""
    return [at for (at, task, text) in res["notes"] if text == "sent ch0"]
