#!/bin/bash
# tools/seedconfirm.sh <seed dir> : confirm a seeded change independently in a scratch worktree:
# it applies, compiles, the repository's own test suite passes with it, the demo passes on the unmodified build and fails on the modified one.
# Writes <seed dir>/confirm.json.
set -u
D=$1
WT=/tmp/seedconf
export CARGO_TARGET_DIR=/tmp/seedconf-target CARGO_NET_OFFLINE=true
if [ ! -d $WT ]; then git -C /repo worktree add --detach $WT HEAD >/dev/null 2>&1; fi
HEAD=$(git -C /repo rev-parse HEAD)
git -C $WT checkout -q -- . ; git -C $WT checkout -q --detach $HEAD
# unmodified build (kept as garden.orig per HEAD)
if [ ! -f /tmp/seedconf-target/garden.orig.$HEAD ]; then
  (cd $WT && cargo build --offline -q 2>/dev/null) && cp /tmp/seedconf-target/debug/garden /tmp/seedconf-target/garden.orig.$HEAD
fi
ORIG=/tmp/seedconf-target/garden.orig.$HEAD
applies=true; git -C $WT apply "$D/patch.diff" 2>/dev/null || applies=false
if [ $applies = false ]; then echo "{\"applies\": false, \"head\": \"$HEAD\"}" > $D/confirm.json; exit 0; fi
builds=true; (cd $WT && cargo build --offline -q 2>/tmp/seedconf-build.err) || builds=false
tests="not run"
if [ $builds = true ]; then
  (cd $WT && cargo nextest run --offline --no-fail-fast 2>&1 | grep -E "Summary|FAIL \[" | sort -u > /tmp/seedconf-tests.txt)
  fails=$(grep "FAIL \[" /tmp/seedconf-tests.txt | grep -v -E "interrupt_aborts_eval|sigint_aborts_eval|reftest_nrepl" | wc -l)
  failnames=$(grep "FAIL \[" /tmp/seedconf-tests.txt | grep -v -E "interrupt_aborts_eval|sigint_aborts_eval|reftest_nrepl" | sed 's/.*garden //' | sort -u | tr '\n' ' ')
  flaky=$(grep "FAIL \[" /tmp/seedconf-tests.txt | grep -E "interrupt_aborts_eval|sigint_aborts_eval|reftest_nrepl" | wc -l)
  if [ $flaky -gt 0 ]; then
    (cd $WT && cargo nextest run --offline --no-fail-fast --retries 8 -j 1 interrupt_aborts_eval sigint_aborts_eval reftest_nrepl 2>&1 | grep -E "Summary" > /tmp/seedconf-flaky.txt)
  else echo "" > /tmp/seedconf-flaky.txt; fi
  tests="$(grep Summary /tmp/seedconf-tests.txt | head -1 | sed 's/^ *//') | other failures: $fails $failnames| timing-sensitive nrepl failures: $flaky, re-run alone with retries: $(sed 's/^ *//' /tmp/seedconf-flaky.txt | head -1)"
fi
d_orig=-1; d_mut=-1
if [ -f $D/demo.sh ] && [ $builds = true ]; then
  timeout 300 bash $D/demo.sh $ORIG >/dev/null 2>&1; d_orig=$?
  timeout 300 bash $D/demo.sh /tmp/seedconf-target/debug/garden >/dev/null 2>&1; d_mut=$?
fi
git -C $WT checkout -q -- .
python3 - "$D" "$HEAD" "$builds" "$tests" "$d_orig" "$d_mut" <<'PY'
import json,sys
d,head,builds,tests,do,dm=sys.argv[1:]
json.dump({"applies":True,"head":head,"builds":builds=="true","tests":tests,"demo_orig_exit":int(do),"demo_mutant_exit":int(dm)},open(d+"/confirm.json","w"),indent=1)
print(open(d+"/confirm.json").read())
PY
