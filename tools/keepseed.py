#!/usr/bin/env python3
"""Keep confirmed seeded changes under /verif/seeded/<id>/ (patch.diff, demo.sh, meta.json)."""
import json, os, re, shutil, sys
SRC = sys.argv[1] if len(sys.argv) > 1 else "/tmp/seed-out"
EVAL = sys.argv[2] if len(sys.argv) > 2 else "/tmp/seedeval"
SUFFIX = sys.argv[3] if len(sys.argv) > 3 else ""
kept = []
for d in sorted(os.listdir(SRC)):
    p = os.path.join(SRC, d)
    if not (os.path.isdir(p) and re.match(r"C\d\d[a-z]?$", d)):
        continue
    need = [os.path.join(p, f) for f in ("patch.diff", "demo.sh", "meta.json", "confirm.json")]
    if not all(os.path.exists(f) for f in need):
        continue
    conf = json.load(open(need[3]))
    ok = conf.get("applies") and conf.get("builds") and conf.get("demo_orig_exit") == 0 and conf.get("demo_mutant_exit", 0) != 0 and "other failures: 0" in conf.get("tests", "")
    log = f"{EVAL}/{d}.log"
    det = {"ran": None}
    if os.path.exists(log):
        t = open(log).read()
        m = re.search(r"seedtest (\S+) rc=(\d+)", t)
        sigs = [l.split("# ", 1)[1].strip() for l in t.splitlines() if l.startswith("VIOLATION") and "# " in l]
        det = {"ran": f"tools/seedtest.sh seeded/{d}{SUFFIX}/patch.diff {d[:3]} quick", "exit": int(m.group(2)) if m else None, "violations": len(sigs), "signatures": sigs[:8]}
    try:
        meta = json.load(open(need[2]))
    except ValueError:
        meta = {"raw": open(need[2]).read()}
    meta["origin"] = "independent sub-agent given only the property text and its own scratch worktree"
    meta["confirmed_by_main_session"] = conf
    meta["detection"] = det
    meta["kept"] = bool(ok)
    if not ok:
        print("NOT kept", d, conf)
        continue
    out = f"/verif/seeded/{d}{SUFFIX}"
    os.makedirs(out, exist_ok=True)
    shutil.copy(need[0], out)
    shutil.copy(need[1], out)
    json.dump(meta, open(os.path.join(out, "meta.json"), "w"), indent=1, ensure_ascii=False)
    kept.append((d + SUFFIX, det.get("exit"), det.get("violations")))
for k in kept:
    print(*k)
