#!/usr/bin/env python3
"""Regenerate the generated part of DESIGN.md §11 (between the GENERATED markers) from known_findings.json and seeded/*/meta.json."""
import json, os, re


def esc(x):
    return str(x).replace("|", "\\|")

V = "/verif"
k = json.load(open(f"{V}/known_findings.json"))
out = []
out.append("### 11.4 Generated tables (tools/gen_design_tables.py)\n")
out.append("#### Defects repaired in /repo (`fix:` commits), by property\n")
out.append("| property | commit | defect |\n|---|---|---|")
for f in sorted(k["fixed"], key=lambda f: (f["property"], f["commit"])):
    out.append(f"| {f['property']} | {f['commit']} | {esc(f['what'])} |")
out.append("\n#### Known findings (recorded, not repaired), by property\n")
out.append("| property | signature | what fails |\n|---|---|---|")
for f in sorted(k["findings"], key=lambda f: (f["property"], f["signature"])):
    w = f["what"]
    out.append(f"| {f['property']} | `{esc(f['signature']).replace(chr(96), chr(39))}` | {esc(w[:260])}{'…' if len(w) > 260 else ''} |")
out.append("\n#### Seeded changes (independent sub-agents; property text only) and the checks that catch them\n")
out.append("Each change was confirmed by the main session in a scratch worktree (applies, builds, the repository's suite passes apart from the three load-sensitive nREPL tests, "
           "demo passes on the unmodified build and fails on the modified one) and then run through `tools/seedtest.sh` (the property's quick tier against a worktree with the change).\n")
out.append("| seed | breaks | needs, to manifest | caught by | signatures (first) |\n|---|---|---|---|---|")
sd = f"{V}/seeded"
for d in sorted(os.listdir(sd)):
    mp = os.path.join(sd, d, "meta.json")
    if not os.path.exists(mp):
        continue
    m = json.load(open(mp))
    det = m.get("detection", {})
    prop = m.get("property", d[:3])
    caught = f"{prop} quick: exit {det.get('exit')}, {det.get('violations')} signature(s)" if det.get("ran") else str(m.get("ran", "see meta.json"))
    sig = esc((det.get("signatures") or [""])[0][:110]).replace(chr(96), chr(39))
    out.append(f"| {d} | {esc(str(m.get('breaks', ''))[:200])} | {esc(str(m.get('needs', ''))[:160])} | {caught} | {sig} |")
sup = os.path.join(sd, "superseded")
if os.path.isdir(sup):
    out.append("\nSuperseded (detected when made; a later `fix:` commit made the property hold under the change, so it no longer breaks it on the current tree):\n")
    out.append("| seed | breaks | why superseded |\n|---|---|---|")
    for d in sorted(os.listdir(sup)):
        mp = os.path.join(sup, d, "meta.json")
        if os.path.exists(mp):
            m = json.load(open(mp))
            out.append(f"| {d} | {esc(str(m.get('breaks', ''))[:200])} | {esc(str(m.get('superseded', ''))[:300])} |")
text = "\n".join(out) + "\n"
p = f"{V}/DESIGN.md"
s = open(p).read()
B, E = "<!-- GENERATED:BEGIN -->", "<!-- GENERATED:END -->"
if B in s:
    s = s[:s.index(B) + len(B)] + "\n" + text + s[s.index(E):]
else:
    s = s.rstrip("\n") + "\n\n" + B + "\n" + text + E + "\n"
open(p, "w").write(s)
print("ok", len(k["fixed"]), "fixed,", len(k["findings"]), "findings")
