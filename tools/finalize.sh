#!/bin/bash
# tools/finalize.sh: regenerate every evidence file and replay file from /verif run against /repo itself (quick tier),
# regenerate MANIFEST.json and the DESIGN.md tables, validate against the schemas.
set -u
cd /verif
rm -rf replays
mkdir -p replays
./gv setup
fail=0
for c in $(cat py/gvlib/claimed.txt | sort -u); do
  out=$(./gv check $c --tier quick 2>&1); rc=$?
  echo "$out" | grep -E "quick\]|MACHINERY|VIOLATION" | cut -c1-200
  if [ $rc -ne 0 ]; then echo "!!! $c exit $rc"; fail=1; fi
done
./gv manifest
python3 tools/sync_fixed.py
python3 tools/gen_design_tables.py
python3-vt - <<'PY'
import json, jsonschema
m = json.load(open('/verif/MANIFEST.json'))
jsonschema.validate(m, json.load(open('/root/.vp/MANIFEST.schema.json')))
sch = json.load(open('/root/.vp/EVIDENCE.schema.json'))
for c in m['checks']:
    e = json.load(open(c['evidence_file']))
    jsonschema.validate(e, sch)
    assert e['level'] == c['level_claimed']['category'], c['property_id']
    assert e['tier'] == 'quick'
print('manifest and', len(m['checks']), 'evidence files valid')
PY
exit $fail
