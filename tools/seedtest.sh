#!/bin/bash
# tools/seedtest.sh <patch.diff> <PID> [tier]: run a check against a scratch worktree of /repo HEAD with a seeded change applied.
# Evidence and replays of that run go to /tmp/seedeval/<PID>, never into /verif.
set -u
PATCH=$1; PID=$2; TIER=${3:-quick}
WT=${SEEDWT:-/tmp/seedwt}
if [ ! -d $WT ]; then git -C /repo worktree add --detach $WT HEAD >/dev/null 2>&1; fi
git -C $WT checkout -q --detach "$(git -C /repo rev-parse HEAD)" && git -C $WT checkout -q -- . && git -C $WT clean -fdq -e target
git -C $WT apply "$PATCH" || { echo "PATCH-DOES-NOT-APPLY"; exit 9; }
rm -rf /tmp/seedeval/$PID
GV_OUT=/tmp/seedeval/$PID GV_REPO=$WT GV_TARGET=$WT-target GV_HARNESS=$WT-harness /verif/gv check $PID --tier $TIER
rc=$?
git -C $WT checkout -q -- .
echo "seedtest $PID rc=$rc"
exit $rc
