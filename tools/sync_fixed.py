#!/usr/bin/env python3
"""Re-sync the commit hashes of the `fixed` entries in known_findings.json with /repo (matched by subject line)."""
import json, subprocess
k = json.load(open('/verif/known_findings.json'))
log = subprocess.run(["git", "-C", "/repo", "log", "--format=%h %s"], capture_output=True, text=True).stdout.strip().splitlines()
by_subject = {l.split(" ", 1)[1][len("fix: "):]: l.split(" ", 1)[0] for l in log if l.split(" ", 1)[1].startswith("fix: ")}
missing = []
for f in k["fixed"]:
    if f["what"] in by_subject:
        f["commit"] = by_subject[f["what"]]
    elif not any(l.startswith(f["commit"]) for l in log):
        missing.append(f)
for f in k["fixed"]:
    f["line"] = f"fixed: property={f['property']} {f['commit']} {f['what']}"
listed = {f["what"] for f in k["fixed"]}
unlisted = [s for s in by_subject if s not in listed and by_subject[s] not in {f["commit"] for f in k["fixed"]}]
json.dump(k, open('/verif/known_findings.json', 'w'), indent=1, ensure_ascii=False)
print("fixed entries:", len(k["fixed"]), "missing commits:", [m["what"][:50] for m in missing], "fix commits not listed:", unlisted)
