//! Runtime support linked into the hooked `garden-verif` binary.
//!
//! std-only. Contains: panic capture, and (module `sched`) the
//! controlled scheduler with drop-in `mpsc` / `thread` shims used by
//! the nREPL exploration.

use std::cell::RefCell;
use std::panic::{catch_unwind, AssertUnwindSafe};

thread_local! {
    static LAST_PANIC: RefCell<Option<String>> = const { RefCell::new(None) };
}

/// Install a silent panic hook that records message and location in a
/// thread-local instead of printing a backtrace to stderr.
pub fn install_panic_hook() {
    std::panic::set_hook(Box::new(|info| {
        let msg = if let Some(s) = info.payload().downcast_ref::<&str>() {
            (*s).to_owned()
        } else if let Some(s) = info.payload().downcast_ref::<String>() {
            s.clone()
        } else {
            "<non-string panic payload>".to_owned()
        };
        let loc = info
            .location()
            .map(|l| format!("{}:{}", l.file(), l.line()))
            .unwrap_or_default();
        LAST_PANIC.with(|p| *p.borrow_mut() = Some(format!("{msg} @ {loc}")));
    }));
}

/// Run `f`; on panic return the recorded message.
pub fn guarded<T>(f: impl FnOnce() -> T) -> Result<T, String> {
    LAST_PANIC.with(|p| *p.borrow_mut() = None);
    match catch_unwind(AssertUnwindSafe(f)) {
        Ok(v) => Ok(v),
        Err(_) => Err(LAST_PANIC
            .with(|p| p.borrow_mut().take())
            .unwrap_or_else(|| "<panic without message>".to_owned())),
    }
}

pub mod sched;
