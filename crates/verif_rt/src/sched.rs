//! Controlled scheduler (stub; filled in with the nREPL exploration).

/// A scheduling point. No-op unless a controlled run is active.
#[inline]
pub fn point(_label: &'static str) {}
