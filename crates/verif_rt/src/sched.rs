//! Controlled scheduler with replay, plus drop-in `mpsc` / `thread`
//! shims.
//!
//! Outside a controlled run the shims are ordinary condvar-based
//! channels and `std::thread` wrappers. Inside a controlled run
//! (`run_controlled`) every participating thread is a *task*; exactly
//! one task holds the baton, and the baton moves only at *points*:
//! every shim operation (`send`, `recv`, `recv_timeout`, `spawn`,
//! `join`) and every explicit `point(label)` / `spin(label)` call.
//! At each point the scheduler lists the alternatives in a canonical
//! order, follows the given choice prefix and then always takes
//! alternative 0, and records what it did, so an execution is a
//! function of its prefix.
//!
//! Alternatives at a point: every enabled task (the running task
//! first, unless it is spinning, then ascending ids), followed by one
//! "timer fires" alternative per task parked in `recv_timeout` on an
//! empty, connected channel. Time is virtual: `recv_timeout` never
//! consults a clock.

use std::cell::Cell;
use std::collections::BTreeMap;
use std::sync::atomic::{AtomicBool, AtomicUsize, Ordering};
use std::sync::{Arc, Condvar, Mutex};

type Probe = Arc<dyn Fn() -> Ready + Send + Sync>;

#[derive(Clone, Copy, PartialEq, Eq, Debug)]
enum Ready {
    /// The wait can complete now (data available, peer gone, task finished).
    Yes,
    /// Nothing to receive yet.
    No,
}

#[derive(Clone)]
enum Wait {
    None,
    /// Blocked until the probe says yes.
    Block(Probe),
    /// Like `Block`, but a timer may fire instead.
    Timed(Probe),
    Join(usize),
    Counter(String, u64),
}

#[derive(Clone, Copy, PartialEq, Eq, Debug)]
pub enum Decision {
    Go,
    Timeout,
}

struct Task {
    name: String,
    finished: bool,
    wait: Wait,
    label: String,
    decision: Decision,
}

pub struct PointRecord {
    pub by: usize,
    pub label: String,
    /// (task, label the task is parked at, is_timeout)
    pub alts: Vec<(usize, String, bool)>,
    pub choice: usize,
    /// The running task could have continued (so another choice is a preemption).
    pub by_enabled: bool,
    pub spinning: bool,
}

struct Sched {
    tasks: Vec<Task>,
    current: usize,
    prefix: Vec<usize>,
    trace: Vec<PointRecord>,
    horizon: usize,
    counters: BTreeMap<String, u64>,
    notes: Vec<(usize, usize, String)>,
    ended: Option<String>,
    next_chan: usize,
}

static SCHED: Mutex<Option<Sched>> = Mutex::new(None);
static CV: Condvar = Condvar::new();

/// Reuse mode: at the end of a run every task unwinds its stack and
/// exits (instead of parking forever), so that the next run can take
/// place in the same process.
static REUSE: AtomicBool = AtomicBool::new(false);
/// Task threads (client included) that have not exited yet.
static LIVE: AtomicUsize = AtomicUsize::new(0);

/// Panic payload that takes a task down at the end of a run in reuse mode.
pub struct RunEnded;

pub fn set_reuse(on: bool) {
    REUSE.store(on, Ordering::SeqCst);
}

struct LiveGuard;

impl LiveGuard {
    fn new() -> Self {
        LIVE.fetch_add(1, Ordering::SeqCst);
        LiveGuard
    }
}

impl Drop for LiveGuard {
    fn drop(&mut self) {
        LIVE.fetch_sub(1, Ordering::SeqCst);
    }
}

thread_local! {
    static TASK_ID: Cell<Option<usize>> = const { Cell::new(None) };
}

fn me() -> Option<usize> {
    TASK_ID.with(|t| t.get())
}

/// Is the calling thread a task of a controlled run?
pub fn controlled() -> bool {
    me().is_some()
}

impl Sched {
    fn enabled(&self, t: usize) -> (bool, bool) {
        // (normally enabled, timeout alternative available)
        let task = &self.tasks[t];
        if task.finished {
            return (false, false);
        }
        match &task.wait {
            Wait::None => (true, false),
            Wait::Block(p) => (p() == Ready::Yes, false),
            Wait::Timed(p) => {
                let r = p() == Ready::Yes;
                (r, !r)
            }
            Wait::Join(other) => (self.tasks[*other].finished, false),
            Wait::Counter(name, n) => (self.counters.get(name).copied().unwrap_or(0) >= *n, false),
        }
    }

    fn alternatives(&self, by: usize, spinning: bool) -> (Vec<(usize, String, bool)>, bool) {
        let mut normal = vec![];
        let mut timeouts = vec![];
        let mut by_enabled = false;
        for t in 0..self.tasks.len() {
            let (en, to) = self.enabled(t);
            if en {
                if t == by {
                    by_enabled = true;
                } else {
                    normal.push((t, self.tasks[t].label.clone(), false));
                }
            }
            if to {
                timeouts.push((t, self.tasks[t].label.clone(), true));
            }
        }
        let mut alts = vec![];
        if by_enabled && !spinning {
            alts.push((by, self.tasks[by].label.clone(), false));
        }
        alts.extend(normal);
        if by_enabled && spinning {
            alts.push((by, self.tasks[by].label.clone(), false));
        }
        alts.extend(timeouts);
        (alts, by_enabled)
    }

    /// Pick the next task at a point reached by `by`. Returns false if the run ended.
    fn schedule(&mut self, by: usize, spinning: bool) -> bool {
        if self.ended.is_some() {
            return false;
        }
        let (alts, by_enabled) = self.alternatives(by, spinning);
        if alts.is_empty() {
            let blocked: Vec<String> = self
                .tasks
                .iter()
                .enumerate()
                .filter(|(_, t)| !t.finished)
                .map(|(i, t)| format!("{}:{}@{}", i, t.name, t.label))
                .collect();
            self.ended = Some(format!("quiescent blocked=[{}]", blocked.join(", ")));
            return false;
        }
        if self.trace.len() >= self.horizon {
            self.ended = Some("horizon".to_owned());
            return false;
        }
        let pos = self.trace.len();
        let choice = if pos < self.prefix.len() { self.prefix[pos] } else { 0 };
        if choice >= alts.len() {
            self.ended = Some(format!(
                "DIVERGED: prefix choice {choice} at point {pos} but only {} alternatives",
                alts.len()
            ));
            return false;
        }
        let (t, _, is_timeout) = alts[choice].clone();
        let label = self.tasks[by].label.clone();
        self.trace.push(PointRecord {
            by,
            label,
            alts,
            choice,
            by_enabled,
            spinning,
        });
        let chosen_label = format!("label:{}", self.tasks[t].label);
        *self.counters.entry(chosen_label).or_default() += 1;
        self.tasks[t].decision = if is_timeout { Decision::Timeout } else { Decision::Go };
        self.tasks[t].wait = Wait::None;
        self.current = t;
        true
    }
}

fn end_run() -> ! {
    // Wake the main thread, which prints the result and exits the process.
    CV.notify_all();
    if REUSE.load(Ordering::SeqCst) && !std::thread::panicking() {
        std::panic::resume_unwind(Box::new(RunEnded));
    }
    loop {
        std::thread::park();
    }
}

fn yield_point(label: &str, wait: Wait, spinning: bool) -> Decision {
    let Some(id) = me() else { return Decision::Go };
    let mut guard = SCHED.lock().unwrap();
    if REUSE.load(Ordering::SeqCst)
        && std::thread::panicking()
        && guard.as_ref().map_or(true, |s| s.ended.is_some())
    {
        // A destructor running while the task unwinds after the end of the run.
        return Decision::Go;
    }
    let ok = match guard.as_mut() {
        None => return Decision::Go,
        Some(s) => {
            s.tasks[id].label = label.to_owned();
            s.tasks[id].wait = wait;
            s.schedule(id, spinning)
        }
    };
    if !ok {
        drop(guard);
        end_run();
    }
    if guard.as_ref().unwrap().current != id {
        CV.notify_all();
        loop {
            guard = CV.wait(guard).unwrap();
            let s = guard.as_ref().unwrap();
            if s.ended.is_some() {
                drop(guard);
                end_run();
            }
            if s.current == id {
                break;
            }
        }
    }
    let d = guard.as_ref().unwrap().tasks[id].decision;
    d
}

/// A scheduling point before an operation on shared state.
pub fn point(label: &'static str) {
    if controlled() {
        yield_point(label, Wait::None, false);
    }
}

/// A scheduling point inside a loop that may not terminate on its
/// own: other enabled tasks are preferred by the default policy.
pub fn spin(label: &'static str) {
    if controlled() {
        yield_point(label, Wait::None, true);
    }
}

/// Block the calling task until the named counter reaches `n`.
pub fn wait_counter(label: &str, counter: &str, n: u64) {
    if controlled() {
        yield_point(label, Wait::Counter(counter.to_owned(), n), false);
    }
}

/// Append a note to the trace (no scheduling).
pub fn note(text: String) {
    let Some(id) = me() else { return };
    if let Some(s) = SCHED.lock().unwrap().as_mut() {
        let at = s.trace.len();
        s.notes.push((at, id, text));
    }
}

/// Increment a counter (no scheduling).
pub fn count(name: &str) {
    if !controlled() {
        return;
    }
    if let Some(s) = SCHED.lock().unwrap().as_mut() {
        *s.counters.entry(name.to_owned()).or_default() += 1;
    }
}

fn register_task(name: String) -> Option<usize> {
    let mut guard = SCHED.lock().unwrap();
    let s = guard.as_mut()?;
    s.tasks.push(Task {
        name,
        finished: false,
        wait: Wait::None,
        label: "start".to_owned(),
        decision: Decision::Go,
    });
    Some(s.tasks.len() - 1)
}

fn task_body_start(id: usize) {
    TASK_ID.with(|t| t.set(Some(id)));
    let mut guard = SCHED.lock().unwrap();
    loop {
        let s = guard.as_ref().unwrap();
        if s.ended.is_some() {
            drop(guard);
            end_run();
        }
        if s.current == id {
            return;
        }
        guard = CV.wait(guard).unwrap();
    }
}

fn task_finish(id: usize, panic_msg: Option<String>) {
    let mut guard = SCHED.lock().unwrap();
    let Some(s) = guard.as_mut() else { return };
    if let Some(m) = panic_msg {
        let at = s.trace.len();
        s.notes.push((at, id, format!("PANIC {m}")));
    }
    s.tasks[id].finished = true;
    s.tasks[id].label = "exit".to_owned();
    if !s.schedule(id, false) {
        drop(guard);
        if id == 0 {
            CV.notify_all();
            return;
        }
        end_run();
    }
    CV.notify_all();
}

pub struct RunResult {
    pub trace: Vec<PointRecord>,
    pub notes: Vec<(usize, usize, String)>,
    pub end: String,
    pub tasks: Vec<String>,
    /// Reuse mode: some task had not exited three seconds after the end of the run.
    pub leaked: bool,
}

/// Run `f` as task 0 of a controlled run and wait for the run to end
/// (quiescence, horizon or divergence). Other tasks may still be
/// parked when this returns: the caller is expected to exit the
/// process.
pub fn run_controlled(
    prefix: Vec<usize>,
    horizon: usize,
    f: impl FnOnce() + Send + 'static,
) -> RunResult {
    {
        let mut guard = SCHED.lock().unwrap();
        *guard = Some(Sched {
            tasks: vec![Task {
                name: "client".to_owned(),
                finished: false,
                wait: Wait::None,
                label: "start".to_owned(),
                decision: Decision::Go,
            }],
            current: 0,
            prefix,
            trace: vec![],
            horizon,
            counters: BTreeMap::new(),
            notes: vec![],
            ended: None,
            next_chan: 0,
        });
    }
    // The client runs on its own thread so that this thread can
    // collect the result when the run ends while the client is parked.
    let live = LiveGuard::new();
    std::thread::Builder::new()
        .name("verif-client".to_owned())
        .spawn(move || {
            let _live = live;
            TASK_ID.with(|t| t.set(Some(0)));
            let r = std::panic::catch_unwind(std::panic::AssertUnwindSafe(f));
            if let Err(e) = &r {
                if e.is::<RunEnded>() {
                    return;
                }
            }
            let msg = r.err().map(|e| {
                if let Some(s) = e.downcast_ref::<&str>() {
                    (*s).to_owned()
                } else if let Some(s) = e.downcast_ref::<String>() {
                    s.clone()
                } else {
                    "<panic>".to_owned()
                }
            });
            task_finish(0, msg);
        })
        .expect("spawn client");
    // Wait for the end of the run.
    let mut guard = SCHED.lock().unwrap();
    loop {
        if guard.as_ref().unwrap().ended.is_some() {
            break;
        }
        let (g, _) = CV
            .wait_timeout(guard, std::time::Duration::from_millis(20))
            .unwrap();
        guard = g;
    }
    // Leave the scheduler in place (ended): parked tasks may still look at it.
    let s = guard.as_mut().unwrap();
    let mut result = RunResult {
        trace: std::mem::take(&mut s.trace),
        notes: std::mem::take(&mut s.notes),
        end: s.ended.clone().unwrap_or_default(),
        tasks: s.tasks.iter().map(|t| t.name.clone()).collect(),
        leaked: false,
    };
    drop(guard);
    if REUSE.load(Ordering::SeqCst) {
        // Every task unwinds and exits; the next run may only start once they are gone.
        let deadline = std::time::Instant::now() + std::time::Duration::from_secs(3);
        while LIVE.load(Ordering::SeqCst) > 0 && std::time::Instant::now() < deadline {
            CV.notify_all();
            std::thread::sleep(std::time::Duration::from_micros(200));
        }
        result.leaked = LIVE.load(Ordering::SeqCst) > 0;
    }
    result
}

// -----------------------------------------------------------------

pub mod mpsc {
    //! Drop-in replacement for the part of `std::sync::mpsc` that
    //! `nrepl.rs` uses.
    use super::{controlled, yield_point, Decision, Probe, Ready, Wait, SCHED};
    use std::collections::VecDeque;
    use std::sync::{Arc, Condvar, Mutex};
    use std::time::{Duration, Instant};

    struct State<T> {
        queue: VecDeque<T>,
        senders: usize,
        receiver_alive: bool,
    }

    struct Chan<T> {
        id: usize,
        state: Mutex<State<T>>,
        cv: Condvar,
    }

    pub struct Sender<T> {
        chan: Arc<Chan<T>>,
    }

    pub struct Receiver<T> {
        chan: Arc<Chan<T>>,
    }

    #[derive(Debug)]
    pub struct SendError<T>(pub T);

    #[derive(Debug, PartialEq, Eq, Clone, Copy)]
    pub struct RecvError;

    #[derive(Debug, PartialEq, Eq, Clone, Copy)]
    pub enum RecvTimeoutError {
        Timeout,
        Disconnected,
    }

    pub fn channel<T: Send + 'static>() -> (Sender<T>, Receiver<T>) {
        let id = {
            let mut g = SCHED.lock().unwrap();
            match g.as_mut() {
                Some(s) if controlled() => {
                    s.next_chan += 1;
                    s.next_chan - 1
                }
                _ => usize::MAX,
            }
        };
        let chan = Arc::new(Chan {
            id,
            state: Mutex::new(State {
                queue: VecDeque::new(),
                senders: 1,
                receiver_alive: true,
            }),
            cv: Condvar::new(),
        });
        (
            Sender {
                chan: Arc::clone(&chan),
            },
            Receiver { chan },
        )
    }

    impl<T> Clone for Sender<T> {
        fn clone(&self) -> Self {
            self.chan.state.lock().unwrap().senders += 1;
            Sender {
                chan: Arc::clone(&self.chan),
            }
        }
    }

    impl<T> Drop for Sender<T> {
        fn drop(&mut self) {
            let mut st = self.chan.state.lock().unwrap();
            st.senders -= 1;
            if st.senders == 0 {
                self.chan.cv.notify_all();
            }
        }
    }

    impl<T> Drop for Receiver<T> {
        fn drop(&mut self) {
            self.chan.state.lock().unwrap().receiver_alive = false;
        }
    }

    impl<T> Sender<T> {
        pub fn send(&self, value: T) -> Result<(), SendError<T>> {
            if controlled() {
                yield_point(&format!("send.ch{}", self.chan.id), Wait::None, false);
            }
            let mut st = self.chan.state.lock().unwrap();
            if !st.receiver_alive {
                return Err(SendError(value));
            }
            st.queue.push_back(value);
            drop(st);
            self.chan.cv.notify_all();
            if controlled() {
                super::note(format!("sent ch{}", self.chan.id));
                super::count(&format!("sent.ch{}", self.chan.id));
            }
            Ok(())
        }
    }

    impl<T: Send + 'static> Receiver<T> {
        fn probe(&self) -> Probe {
            let chan = Arc::clone(&self.chan);
            Arc::new(move || {
                let st = chan.state.lock().unwrap();
                if !st.queue.is_empty() || st.senders == 0 {
                    Ready::Yes
                } else {
                    Ready::No
                }
            })
        }

        pub fn recv(&self) -> Result<T, RecvError> {
            if controlled() {
                yield_point(&format!("recv.ch{}", self.chan.id), Wait::Block(self.probe()), false);
                let mut st = self.chan.state.lock().unwrap();
                return match st.queue.pop_front() {
                    Some(v) => Ok(v),
                    None => Err(RecvError),
                };
            }
            let mut st = self.chan.state.lock().unwrap();
            loop {
                if let Some(v) = st.queue.pop_front() {
                    return Ok(v);
                }
                if st.senders == 0 {
                    return Err(RecvError);
                }
                st = self.chan.cv.wait(st).unwrap();
            }
        }

        pub fn recv_timeout(&self, timeout: Duration) -> Result<T, RecvTimeoutError> {
            if controlled() {
                let d = yield_point(
                    &format!("recv_timeout.ch{}", self.chan.id),
                    Wait::Timed(self.probe()),
                    false,
                );
                if d == Decision::Timeout {
                    return Err(RecvTimeoutError::Timeout);
                }
                let mut st = self.chan.state.lock().unwrap();
                return match st.queue.pop_front() {
                    Some(v) => Ok(v),
                    None => Err(RecvTimeoutError::Disconnected),
                };
            }
            let deadline = Instant::now() + timeout;
            let mut st = self.chan.state.lock().unwrap();
            loop {
                if let Some(v) = st.queue.pop_front() {
                    return Ok(v);
                }
                if st.senders == 0 {
                    return Err(RecvTimeoutError::Disconnected);
                }
                let now = Instant::now();
                if now >= deadline {
                    return Err(RecvTimeoutError::Timeout);
                }
                let (g, _) = self.chan.cv.wait_timeout(st, deadline - now).unwrap();
                st = g;
            }
        }

        /// Everything queued right now (no scheduling).
        pub fn drain(&self) -> Vec<T> {
            self.chan.state.lock().unwrap().queue.drain(..).collect()
        }
    }
}

pub mod sync {
    //! Drop-in replacement for `std::sync::Mutex` as `nrepl.rs` and the
    //! interpreter's output capture use it: every `lock()` is a
    //! scheduling point, and a lock held by a paused task makes the
    //! caller wait visibly instead of blocking the baton holder.
    use super::{controlled, me, yield_point, Wait};
    use std::sync::{LockResult, MutexGuard, TryLockError};

    #[derive(Debug, Default)]
    pub struct Mutex<T>(std::sync::Mutex<T>);

    impl<T> Mutex<T> {
        pub fn new(t: T) -> Self {
            Mutex(std::sync::Mutex::new(t))
        }

        pub fn lock(&self) -> LockResult<MutexGuard<'_, T>> {
            if controlled() && me().is_some() {
                let mut spinning = false;
                loop {
                    yield_point("mutex.lock", Wait::None, spinning);
                    match self.0.try_lock() {
                        Ok(g) => return Ok(g),
                        Err(TryLockError::Poisoned(p)) => return Err(p),
                        Err(TryLockError::WouldBlock) => spinning = true,
                    }
                }
            }
            self.0.lock()
        }
    }
}

pub mod thread {
    //! Drop-in replacement for the part of `std::thread` that
    //! `nrepl.rs` uses.
    use super::{controlled, register_task, task_body_start, task_finish, yield_point, Wait};
    use std::io;
    use std::time::Duration;

    pub struct Builder {
        name: Option<String>,
    }

    pub struct JoinHandle<T> {
        inner: std::thread::JoinHandle<T>,
        task: Option<usize>,
    }

    impl Builder {
        #[allow(clippy::new_without_default)]
        pub fn new() -> Self {
            Builder { name: None }
        }

        pub fn name(mut self, name: String) -> Self {
            self.name = Some(name);
            self
        }

        pub fn spawn<F, T>(self, f: F) -> io::Result<JoinHandle<T>>
        where
            F: FnOnce() -> T + Send + 'static,
            T: Send + 'static,
        {
            let mut b = std::thread::Builder::new();
            if let Some(n) = &self.name {
                b = b.name(n.clone());
            }
            if !controlled() {
                return b.spawn(f).map(|inner| JoinHandle { inner, task: None });
            }
            let id = register_task(self.name.clone().unwrap_or_else(|| "thread".to_owned()));
            let Some(id) = id else {
                return b.spawn(f).map(|inner| JoinHandle { inner, task: None });
            };
            let live = super::LiveGuard::new();
            let inner = b.spawn(move || {
                let _live = live;
                let r = std::panic::catch_unwind(std::panic::AssertUnwindSafe(|| {
                    task_body_start(id);
                    f()
                }));
                match r {
                    Ok(v) => {
                        task_finish(id, None);
                        v
                    }
                    Err(e) if e.is::<super::RunEnded>() => std::panic::resume_unwind(e),
                    Err(e) => {
                        let msg = if let Some(s) = e.downcast_ref::<&str>() {
                            (*s).to_owned()
                        } else if let Some(s) = e.downcast_ref::<String>() {
                            s.clone()
                        } else {
                            "<panic>".to_owned()
                        };
                        task_finish(id, Some(msg));
                        std::panic::resume_unwind(e)
                    }
                }
            })?;
            yield_point("spawn", Wait::None, false);
            Ok(JoinHandle {
                inner,
                task: Some(id),
            })
        }
    }

    impl<T> JoinHandle<T> {
        pub fn join(self) -> std::thread::Result<T> {
            if let (true, Some(t)) = (controlled(), self.task) {
                yield_point("join", Wait::Join(t), false);
            }
            self.inner.join()
        }
    }

    pub fn sleep(d: Duration) {
        if controlled() {
            yield_point("sleep", Wait::None, true);
        } else {
            std::thread::sleep(d);
        }
    }
}
